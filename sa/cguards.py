"""Guard-vs-footprint analysis of the BLAS wrappers (C17-R5 / C19-R1,R2): for every call
to a Fortran BLAS routine reached under a case, every array actual `BUF(X) + off` must
be covered by a dominating rejecting guard whose polynomial equals the reference
footprint of that parameter instantiated with the call's actuals:
        off + footprint <= len(X)      and   off >= 0,   ld >= max(1, rows)."""
from . import cexpr as cx
from . import cfront as cf
from . import cmodel as cm
from . import kb_blas as kb
from .poly import Poly

BUF_MACROS = {"MAT_BUFD": 1, "MAT_BUFZ": 1, "MAT_BUFI": 1, "MAT_BUF": 0, "SP_VALD": 1, "SP_VALZ": 1}


def simplify(e, case):
    """resolve ternaries / sub-conditions decidable under the case"""
    if not isinstance(e, tuple):
        return e
    k = e[0]
    if k == "tern":
        v = cm.peval(e[1], case)
        if v is True:
            return simplify(e[2], case)
        if v is False:
            return simplify(e[3], case)
        return ("tern", e[1], simplify(e[2], case), simplify(e[3], case))
    if k == "bin":
        return ("bin", e[1], simplify(e[2], case), simplify(e[3], case))
    if k == "un":
        return ("un", e[1], simplify(e[2], case))
    if k == "cast":
        return simplify(e[2], case)
    if k == "call":
        return ("call", e[1], [simplify(a, case) for a in e[2]])
    return e


def array_actual(e):
    """`MAT_BUFD(A) + oA` -> ('A', offset Poly, macro) ; None if not of that shape.
    Byte-addressed form of base.c: `(unsigned char*)MAT_BUF(x) + ox*E_SIZE[id]`."""
    r = _array_actual(e)
    if r and r[2] == "MAT_BUF" and r[1].t:
        # every term must carry the element size exactly once: offset in elements
        es = "E_SIZE[id]"
        out = {}
        for mono, cval in r[1].t.items():
            d = dict(mono)
            if d.get(es, 0) != 1:
                return None
            d.pop(es)
            out[tuple(sorted(d.items()))] = cval
        return (r[0], Poly(out), r[2])
    return r


def _array_actual(e):
    e = cx.strip_casts(e)
    if e[0] == "call" and e[1] in BUF_MACROS and len(e[2]) == 1 and e[2][0][0] == "id":
        return (e[2][0][1], Poly.const(0), e[1])
    if e[0] == "bin" and e[1] == "+":
        l, r = cx.strip_casts(e[2]), cx.strip_casts(e[3])
        if l[0] == "call" and l[1] in BUF_MACROS and len(l[2]) == 1 and l[2][0][0] == "id":
            off = cx.to_poly(r)
            if off is not None:
                return (l[2][0][1], off, l[1])
        if l[0] == "bin" and l[1] == "+":
            inner = _array_actual(l)
            off = cx.to_poly(r)
            if inner and off is not None:
                return (inner[0], inner[1] + off, inner[2])
    return None


def scalar_var(e):
    """`&n` -> 'n' ; `&a.d` -> None"""
    e = cx.strip_casts(e)
    if e[0] == "un" and e[1] == "&" and e[2][0] == "id":
        return e[2][1]
    return None


def global_sign_facts(sim):
    """Unconditional top-level rejecting guards that are single comparisons with a
    constant: {var: set of relations established}  e.g. ix: {'>0'}, ox: {'>=0'}"""
    out = {}
    for st in sim.body.get("c", []):
        if st.get("k") != "IfStmt" or len(st.get("c", [])) < 2 or not cm.is_error_exit(st["c"][1]):
            continue
        c = sim.cond_of(st)
        if c is None:
            continue
        atoms = []

        def disj(e):
            if e[0] == "bin" and e[1] == "||":
                disj(e[2])
                disj(e[3])
            else:
                atoms.append(e)
        disj(c)
        for a in atoms:
            a = cx.strip_casts(a)
            if a[0] == "bin" and a[1] in cm.CMP:
                l, r = cx.strip_casts(a[2]), cx.strip_casts(a[3])
                if l[0] == "id" and r[0] == "num":
                    rel = None
                    if (a[1], r[1]) in (("<=", 0), ("<", 1)):
                        rel = ">0"
                    elif (a[1], r[1]) in (("<", 0), ("<=", -1)):
                        rel = ">=0"
                    elif (a[1], r[1]) == ("==", 0):
                        rel = "!=0"
                    if rel and len(atoms) == 1:
                        out.setdefault(l[1], set()).add(rel)
    return out


def local_allocations(sim):
    """{pointer var: [count Poly, ...]} for `p = (T*) calloc(count, sizeof(T))` /
    `malloc(count * sizeof(T))` assignments in the function"""
    out = {}
    for n in cf.walk(sim.body):
        if n.get("k") == "CallExpr" and cf.callee_name(n) in ("calloc", "malloc") and not n.get("bm"):
            span = sim.c.paren_after(n["b"])
            if not span:
                continue
            args = cf.split_top(sim.c.text(span[0] + 1, span[1]))
            try:
                if cf.callee_name(n) == "calloc" and len(args) == 2:
                    cnt = cx.to_poly(cx.parse(args[0]))
                else:
                    e = cx.parse(args[0])
                    cnt = None
                    if e[0] == "bin" and e[1] == "*":
                        for a, b in ((e[2], e[3]), (e[3], e[2])):
                            if b[0] == "call" and b[1] == "sizeof":
                                cnt = cx.to_poly(a)
            except cx.ParseError:
                cnt = None
            # find the variable the result is assigned to: scan back in the text
            pre = sim.c.text(max(0, n["b"] - 80), n["b"])
            import re
            m = re.search(r"(\w+)\s*=\s*(?:\([^()]*\)\s*)*$", pre)
            if m and cnt is not None:
                out.setdefault(m.group(1), []).append(cnt)
    return out


def check_site(site, sim, gfacts, kbmod=kb, allocs=None):
    """-> list of (status, what, detail, expected, observed) for one call site.
    status: ok / violation / undecided"""
    res = []
    site_args = [simplify(a, site.case) if a is not None else None for a in site.args]
    base = kbmod.lookup(site.callee)
    if base is None:
        # no reference entry: weaker variable-set rule - every matrix buffer handed over
        # must at least be covered by some rejecting guard on its length
        out = []
        for i, a in enumerate(site_args):
            if a is None:
                continue
            arr = array_actual(a)
            if arr is None and a[0] == "tern":
                arr = array_actual(a[2]) or array_actual(a[3])
            if arr is None:
                continue
            X = arr[0]
            what = "%s(arg%d=%s)" % (site.callee, i + 1, cx.unparse(a))
            if any(f.D is not None and "len(%s)" % X in f.D.symbols() for f in site.facts):
                out.append(("ok", what, "a rejecting guard on len(%s) dominates the call (no reference footprint for this routine)" % X, None, None))
            else:
                out.append(("violation", what, "buffer of `%s` is handed to %s without any dominating guard on its length" % (X, site.callee),
                            "if (... > len(%s)) error" % X, "none"))
        return out or [("undecided", "routine %s" % site.callee, "no reference entry and no matrix buffer argument", None, None)]
    params = kbmod.ROUTINES[base]
    if len(params) != len(site.args):
        return [("undecided", "routine %s" % site.callee,
                 "argument count %d differs from the reference %d" % (len(site.args), len(params)), None, None)]
    case = site.case
    vals, flags, zero = {}, {}, set()
    arrays = {}
    for (pname, role), a in zip(params, site_args):
        if a is None:
            return [("undecided", "%s:%s" % (site.callee, pname), "argument text not parsed", None, None)]
        if role in ("dim", "ld", "inc"):
            v = scalar_var(a)
            if v == "intOne":
                vals[pname] = Poly.const(1)
                vals["#var:" + pname] = v
                continue
            if v is None:
                return [("undecided", "%s:%s" % (site.callee, pname), "scalar actual is not `&var`", None, cx.unparse(a))]
            vals[pname] = Poly.sym(v)
            if role == "dim" and case.signs.get(v) == 0:
                zero.add(pname)
            vals["#var:" + pname] = v
        elif role == "flag":
            v = scalar_var(a)
            if v is not None and v in case.flags:
                flags[pname] = case.flags[v]
            elif a[0] == "str" and len(a[1]) == 1:
                flags[pname] = a[1]
        elif isinstance(role, tuple):
            arrays[pname] = (role, a)
    # facts with ternaries resolved under the case
    fpolys = []
    for f in site.facts:
        if f.D is not None and not f.eq and not f.ne:
            fpolys.append((f.D, f.strict, f.text))
        elif f.D is not None and f.eq:
            fpolys.append((f.D, False, f.text))
            fpolys.append((-f.D, False, f.text))
    # re-derive D after simplification of flag-dependent ternaries
    simp = []
    for f in site.facts:
        if "?" in f.text:
            try:
                e = simplify(cx.parse(f.text), case)
                if e[0] == "bin" and e[1] in cm.CMP:
                    g = cm.Fact(e[1], e[2], e[3], cx.unparse(e))
                    if g.D is not None:
                        simp.append((g.D, g.strict, g.text))
            except cx.ParseError:
                pass
    fpolys += simp

    eqsub = {}
    for f in site.facts:
        if getattr(f, "assign_var", None) and f.D is not None:
            eqsub[f.assign_var] = f.assign_poly

    def absnorm(p):
        if "abs(1)" in p.symbols():
            p = p.subs({"abs(1)": Poly.const(1)})
        return _absnorm2(p)

    def _absnorm2(p):
        """abs(v) -> v when v > 0 is established"""
        m = {}
        for s in p.symbols():
            if s.startswith("abs(") and s.endswith(")"):
                v = s[4:-1]
                if ">0" in gfacts.get(v, ()):
                    m[s] = Poly.sym(v)
        return p.subs(m) if m else p

    for pname, (role, a) in arrays.items():
        arr = array_actual(a)
        what = "%s(%s=%s)" % (site.callee, pname, cx.unparse(a))
        if arr is None:
            la = cx.strip_casts(a)
            if la[0] == "id" and allocs is not None and la[1] in allocs:
                fp, why, rows = kb.footprint(role, vals, flags, zero)
                if fp in (None, "?"):
                    res.append(("ok" if fp is None else "undecided", what, why or "not referenced", None, None))
                    continue
                good = False
                for cnt in allocs[la[1]]:
                    d = cnt.subs(eqsub) - fp.subs(eqsub) if eqsub else cnt - fp
                    if not d.t or (d.is_const() and d.const_value() >= 0):
                        good = True
                if good:
                    res.append(("ok", what, "local allocation of %s elements covers the footprint %r" % (allocs[la[1]], fp), None, None))
                else:
                    res.append(("violation", what, "local array `%s` is allocated with %s elements but the routine touches %r"
                                % (la[1], allocs[la[1]], fp), "allocation >= %r" % fp, [repr(x) for x in allocs[la[1]]]))
                continue
            if la[0] == "id" and la[1] == "NULL":
                continue
            res.append(("undecided", what, "array actual is not of the form BUF(X) + offset", None, None))
            continue
        X, off, macro = arr
        fp, why, rows = kb.footprint(role, vals, flags, zero)
        if fp == "?":
            res.append(("undecided", what, why, None, None))
            continue
        if fp is None:
            res.append(("ok", what, "not referenced in this case (%s)" % why, None, None))
            continue
        # a complex matrix addressed through its double view: lengths count doubles
        known_double = any(f.text.replace(" ", "") in ("(MAT_ID(%s)==DOUBLE)" % X, "(%s->id==DOUBLE)" % X) for f in site.facts)
        u = 2 if (macro == "MAT_BUFD" and case.mid == "COMPLEX" and not known_double) else 1
        need = absnorm(Poly.const(u) * Poly.sym("len(%s)" % X) - off - fp)       # must be >= 0
        hit = None
        weaker = None
        for D, strict, text in fpolys:
            Dn = absnorm(D)
            if "len(%s)" % X not in Dn.symbols():
                continue
            diff = need - Poly.const(u) * Dn     # need = u*Dn + diff ; want diff >= 0
            if not diff.t or (u == 2 and diff.is_const() and 0 <= diff.const_value() <= 1):
                hit = ("exact", text)
                break
            if diff.is_const():
                c = diff.const_value()
                if strict and c == -1:
                    hit = ("exact", text)       # D > 0  <=>  D - 1 >= 0
                    break
                if c >= 0 or (strict and c >= -1):
                    weaker = ("stronger-by-%s" % c, text)
                else:
                    weaker = weaker or ("too-weak-by-%s" % (-c), text)
            else:
                weaker = weaker or ("different", text)
        exp = "guard  %s + (%r) <= len(%s)" % (repr(off), fp, X)
        if not hit:
            need_e, facts_e = eliminate_equalities(need, [(absnorm(D), st_) for D, st_, _t in fpolys])
            relf = _relevant_facts(need_e, facts_e, "len(%s)" % X)
            if any((not st_) and D_ == need_e for D_, st_ in facts_e):
                verdict, wit = "equivalent", None          # exact after substituting the equalities
            else:
                verdict, wit = grid_decide(need_e, relf, case, gfacts, "len(%s)" % X)
                if verdict == "unknown":
                    # too many variables through transitive relevance: only the facts that share a variable with the need
                    nb_ = _base_vars([need_e])
                    direct = [(D_, st_) for D_, st_ in facts_e if _base_vars([D_]) & nb_
                              and not any(v_.startswith("len(") and v_ != "len(%s)" % X for v_ in _base_vars([D_]))]
                    verdict, wit = grid_decide(need_e, direct, case, gfacts, "len(%s)" % X)
            if verdict == "equivalent":
                hit = ("equivalent on the grid", weaker[1] if weaker else "")
            elif verdict == "over":
                res.append(("violation-over", what,
                            "the guards reject a call the reference footprint allows, e.g. %s (nearest guard `%s`)" % (wit, weaker[1] if weaker else ""),
                            exp, weaker[1] if weaker else None))
                weaker = None
                hit = "done"
            elif verdict == "under":
                res.append(("violation", what,
                            "guards pass but the reference footprint of %s exceeds the buffer, e.g. %s; case [%r]; nearest guard `%s`"
                            % (pname, wit, case, weaker[1] if weaker else "none"), exp, weaker[1] if weaker else "none"))
                weaker = None
                hit = "done"
        if hit == "done":
            pass
        elif hit:
            res.append(("ok", what, "guard `%s` equals offset + reference footprint %r" % (hit[1], fp), None, None))
        elif weaker and weaker[0].startswith("stronger"):
            res.append(("violation-over", what,
                        "guard `%s` rejects more than the reference footprint requires (%s)" % (weaker[1], weaker[0]), exp, weaker[1]))
        elif weaker:
            res.append(("violation", what,
                        "no dominating guard covers the reference footprint of %s in case [%r]: nearest guard `%s` (%s)"
                        % (pname, case, weaker[1], weaker[0]), exp, weaker[1]))
        else:
            res.append(("violation", what, "no dominating rejecting guard on len(%s) in case [%r]" % (X, case), exp, "none"))
        # offset >= 0
        ovars = [s for s in off.symbols()]
        for ov in ovars:
            if ">=0" in gfacts.get(ov, ()) or ">0" in gfacts.get(ov, ()):
                res.append(("ok", what + ":offset %s >= 0" % ov, "", None, None))
            else:
                res.append(("violation", what + ":offset %s >= 0" % ov, "offset `%s` is not rejected when negative" % ov,
                            "if (%s < 0) error" % ov, "no such guard"))
        # leading dimension
        if role[0] in ("mat", "band") and rows is not None:
            ldv = vals.get("#var:" + role[3])
            want = absnorm(Poly.sym(ldv) - Poly.sym("MAX(1, %s)" % _txt(rows)))
            okld = False
            seen_ld = []
            rows_ge1 = rows.const_value() >= 1 and all(v >= 0 for v in rows.t.values())
            for D, strict, text in fpolys:
                if ldv in D.symbols() and ("len(" not in repr(D)):
                    seen_ld.append(text)
                    if not (D - want).t:
                        okld = True
                    elif rows_ge1 and not (D - (Poly.sym(ldv) - rows)).t:
                        okld = True          # rows >= 1 always: MAX(1, rows) == rows
                    elif _equal_on_grid(D, want):
                        okld = True
            if not okld:
                facts_all = [(absnorm(D), st_) for D, st_, _t in fpolys]
                want_e, facts_e = eliminate_equalities(want, [f_ for f_ in facts_all if "len(" not in repr(f_[0])])
                relf = _relevant_facts(want_e, facts_e, "len(%s)" % X)
                verdict, wit = grid_decide(want_e, relf, case, gfacts, "len(%s)" % X)
                if verdict in ("equivalent", "over") and relf:
                    okld = True
            if okld:
                res.append(("ok", what + ":ld", "%s >= MAX(1, %s)" % (ldv, _txt(rows)), None, None))
            elif fp is not None:
                res.append(("violation", what + ":ld", "leading dimension `%s` is not checked against max(1, rows=%s) in case [%r]"
                            % (ldv, _txt(rows), case), "%s >= MAX(1, %s)" % (ldv, _txt(rows)), seen_ld[:2]))
    return res


def _txt(p):
    syms = sorted(p.symbols())
    if len(syms) == 1 and p == Poly.sym(syms[0]):
        return syms[0]
    return repr(p)


# --------------------------------------------------------------------------------------
# bounded concrete decision when polynomial forms differ
# --------------------------------------------------------------------------------------
import itertools as _it


def _eval_sym(name, env):
    """value of an opaque symbol (MAX(..), MIN(..), abs(..), A->nrows ...) under env"""
    if name in env:
        return env[name]
    try:
        e = cx.parse(name)
    except cx.ParseError:
        return None
    return _eval(e, env)


def _eval(e, env):
    k = e[0]
    if k == "num":
        return e[1]
    if k == "id":
        return env.get(e[1])
    if k == "cast":
        return _eval(e[2], env)
    if k == "un" and e[1] == "-":
        v = _eval(e[2], env)
        return None if v is None else -v
    if k == "bin" and e[1] in ("+", "-", "*"):
        a, b = _eval(e[2], env), _eval(e[3], env)
        if a is None or b is None:
            return None
        return a + b if e[1] == "+" else a - b if e[1] == "-" else a * b
    if k == "call" and e[1] in ("MAX", "MIN") and len(e[2]) == 2:
        a, b = _eval(e[2][0], env), _eval(e[2][1], env)
        if a is None or b is None:
            return None
        return max(a, b) if e[1] == "MAX" else min(a, b)
    if k == "call" and e[1] == "abs" and len(e[2]) == 1:
        a = _eval(e[2][0], env)
        return None if a is None else abs(a)
    txt = cx.unparse(e)
    return env.get(txt)


def _leaf_vars(e, out):
    k = e[0]
    if k == "num":
        return
    if k == "id":
        out.add(e[1])
    elif k == "cast":
        _leaf_vars(e[2], out)
    elif k == "un":
        _leaf_vars(e[2], out)
    elif k == "bin" and e[1] in ("+", "-", "*"):
        _leaf_vars(e[2], out)
        _leaf_vars(e[3], out)
    elif k == "call" and e[1] in ("MAX", "MIN", "abs"):
        for a in e[2]:
            _leaf_vars(a, out)
    else:
        out.add(cx.unparse(e))


def _base_vars(polys):
    """the free variables of the polynomials: plain symbols, and the leaves inside
    MAX(..)/MIN(..)/abs(..) symbols (`A->nrows` is one variable, not `A`)"""
    out = set()
    for p in polys:
        for s in p.symbols():
            try:
                e = cx.parse(s)
            except cx.ParseError:
                out.add(s)
                continue
            if e[0] == "call" and e[1] in ("MAX", "MIN", "abs"):
                _leaf_vars(e, out)
            else:
                out.add(s)
    return out


def eliminate_equalities(need, facts):
    """facts: [(D, strict)] meaning D >= 0 (or > 0).  A pair D >= 0, -D >= 0 is an equality;
    when it is `v = expr` for a plain local `v` that occurs nowhere inside an opaque
    MAX/MIN symbol, substitute it away (fewer grid variables, same solutions)."""
    facts = list(facts)
    for _ in range(12):
        reprs = {}
        for idx, (D, st_) in enumerate(facts):
            if not st_:
                reprs.setdefault(repr(D), idx)
        pick = None
        inside = set()
        for q in [need] + [D for D, _ in facts]:
            for sname in q.symbols():
                if "(" in sname:
                    try:
                        _leaf_vars(cx.parse(sname), inside)
                    except cx.ParseError:
                        pass
        for idx, (D, st_) in enumerate(facts):
            if st_ or repr(-D) not in reprs or not D.t:
                continue
            for mono, c in D.t.items():
                if len(mono) == 1 and mono[0][1] == 1 and abs(c) == 1:
                    v = mono[0][0]
                    if "(" in v or "->" in v or v in inside:
                        continue
                    if any(v in dict(m2) for m2 in D.t if m2 != mono):
                        continue
                    rest_ = Poly({m2: c2 for m2, c2 in D.t.items() if m2 != mono})
                    pick = (v, (-rest_) if c == 1 else rest_, repr(D), repr(-D))
                    break
            if pick:
                break
        if not pick:
            break
        v, expr, r1, r2 = pick
        sub = {v: expr}
        need = need.subs(sub)
        nf = []
        for D, st_ in facts:
            if not st_ and repr(D) in (r1, r2):
                continue
            D2 = D.subs(sub)
            if D2.is_const():
                continue
            nf.append((D2, st_))
        facts = nf
    return need, facts


def _pval(p, env):
    tot = 0
    for mono, c in p.t.items():
        v = c
        for s, pw in mono:
            x = _eval_sym(s, env)
            if x is None:
                return None
            v = v * (x ** pw)
        tot += v
    return tot


def _relevant_facts(need, facts, lensym, limit=9):
    """facts connected to `need` through shared variables (transitively), without
    dragging in the length of other matrices; stops growing at `limit` variables"""
    X = lensym[4:-1]
    vars_ = set(_base_vars([need]))
    if lensym in vars_:
        vars_ |= {"%s->nrows" % X, "%s->ncols" % X}
    chosen = []
    rest = list(facts)
    changed = True
    while changed:
        changed = False
        for f in list(rest):
            bv = _base_vars([f[0]])
            if any(v.startswith("len(") and v != lensym for v in bv):
                rest.remove(f)
                continue
            if bv & vars_ and len(vars_ | bv) <= limit + 3:
                chosen.append(f)
                rest.remove(f)
                vars_ |= bv
                changed = True
    return chosen


def _equal_on_grid(p, q):
    vars_ = sorted(_base_vars([p, q]))
    if len(vars_) > 6:
        return False
    for combo in _it.product((0, 1, 2, 3), repeat=len(vars_)):
        env = dict(zip(vars_, combo))
        a, b = _pval(p, env), _pval(q, env)
        if a is None or b is None or a != b:
            return False
    return True


_GRID_MEMO = {}


def grid_decide(need, facts, case, gfacts, lensym, budget=60000):
    key = (repr(need), tuple(sorted((repr(D), s) for D, s in facts)), tuple(sorted(case.signs.items())),
           tuple(sorted((k, tuple(sorted(v))) for k, v in gfacts.items())), lensym)
    if key not in _GRID_MEMO:
        _GRID_MEMO[key] = _grid_decide(need, facts, case, gfacts, lensym, budget)
    return _GRID_MEMO[key]


def _grid_decide(need, facts, case, gfacts, lensym, budget=60000):
    """Compare `need >= 0` (reference requirement) with the conjunction of the guard facts
    on a grid of small concrete values.  -> ('equivalent'|'over'|'under'|'unknown', witness)"""
    # when the rows/columns of X appear as variables, len(X) is their product
    allsyms = set(need.symbols())
    for D, _ in facts:
        allsyms |= D.symbols()
    sub = {}
    for sname in allsyms:
        if sname.startswith("len(") and sname.endswith(")"):
            X = sname[4:-1]
            if ("%s->nrows" % X) in allsyms or ("%s->ncols" % X) in allsyms:
                sub[sname] = Poly.sym("%s->nrows" % X) * Poly.sym("%s->ncols" % X)
    is_len_fact = [lensym in D.symbols() for D, _ in facts]
    if sub:
        need = need.subs(sub)
        facts = [(D.subs(sub), st_) for D, st_ in facts]
    polys = [need] + [D for D, _ in facts]
    vars_ = sorted(_base_vars(polys))
    if len(vars_) > 12:
        return ("unknown", None)
    doms = []
    for v in vars_:
        if v.startswith("len("):
            doms.append(range(0, 14))
        elif v in case.signs:
            doms.append((0,) if case.signs[v] == 0 else (1, 2, 3))
        elif ">=0" in gfacts.get(v, ()) :
            doms.append((0, 1, 2))
        elif ">0" in gfacts.get(v, ()):
            doms.append((1, 2, 3))
        elif "!=0" in gfacts.get(v, ()):
            doms.append((-2, -1, 1, 2))
        elif "->" in v or v.startswith("ld"):
            doms.append((1, 2, 3, 4))
        else:
            doms.append((0, 1, 2, 3))
    total = 1
    for d in doms:
        total *= len(d)
    if total > budget:
        return ("unknown", None)
    over = under = None
    for combo in _it.product(*doms):
        env = dict(zip(vars_, combo))
        nv = _pval(need, env)
        if nv is None:
            return ("unknown", None)
        ok_guards = True
        for D, strict in facts:
            dv = _pval(D, env)
            if dv is None:
                continue
            if dv < 0 or (strict and dv == 0):
                ok_guards = False
                break
        if ok_guards and nv < 0 and under is None:
            under = dict(env)
        if (not ok_guards) and nv >= 0 and over is None:
            # only the length guards matter for over-rejection: re-test with the non-length facts
            oth = True
            for (D, strict), isl in zip(facts, is_len_fact):
                if isl:
                    continue
                dv = _pval(D, env)
                if dv is not None and (dv < 0 or (strict and dv == 0)):
                    oth = False
            lenfail = False
            for (D, strict), isl in zip(facts, is_len_fact):
                if isl:
                    dv = _pval(D, env)
                    if dv is not None and (dv < 0 or (strict and dv == 0)):
                        lenfail = True
            if oth and lenfail:
                over = dict(env)
        if under:
            break
    if under:
        return ("under", under)
    if over:
        return ("over", over)
    return ("equivalent", None)
