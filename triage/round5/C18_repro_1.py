# pbsv / pbtrs: passing offsetB (keyword or 10th positional) segfaults
import subprocess, sys
code = r'''
from cvxopt import matrix, lapack
A = matrix([[2.0,-1.0],[2.0,-1.0],[2.0,0.0]])   # SPD tridiagonal, lower band storage (kd=1)
B = matrix([1.0,2.0,3.0])
%s
print("X =", list(B))
'''
for call in ("lapack.pbsv(A, B)",
             "lapack.pbsv(A, B, offsetB=0)",
             "lapack.pbtrf(A); lapack.pbtrs(A, B, offsetB=0)"):
    r = subprocess.run([sys.executable, "-c", code % call], capture_output=True, text=True)
    print("%-50s rc=%d %s" % (call, r.returncode, r.stdout.strip()))
