# C13 / repro 5 (outside the four edit operations named in the property): a failed
# op.fromfile() wipes the constraint lists before the file is even opened and leaves
# _variables pointing at constraints that are no longer in the problem.
from cvxopt.modeling import variable, op
x = variable(1, 'x'); y = variable(1, 'y')
c1 = (x + y <= 3); c2 = (x - y == 0)
p = op(-x, [c1, c2])
try: p.fromfile('/nonexistent/file.mps')
except Exception as e: print(type(e).__name__)
print('constraints():', p.constraints())
print('variables()  :', p.variables())
print('_variables   :', p._variables)
print('objective    :', repr(p.objective))
