"""Effect / alias analysis: does a function write (in place) to an object reachable
from one of its protected roots (parameters, the options dictionaries)?

Flow-insensitive may-alias over local names (sound for "may write"): each name maps to
the set of roots it may share storage with; constructors, copies, arithmetic and
slicing of matrices give fresh objects; subscripting/iterating a *container* root
(dims, primalstart, lists of matrices, options, ...) gives an alias of that root.
Sinks: subscript/attribute stores, `del x[..]`, augmented assignment on a non-scalar
name, mutating container methods, and passing an alias in a written position of a callee
per the effect table below (BLAS/LAPACK/base/misc kernels, user callbacks per their
documented contract, nested defs by computed summaries)."""
import ast

from . import pyfront as pf

# callee -> positions (0-based) / keyword names of arguments written in place
WRITES = {
    "blas.copy": [1], "blas.scal": [1], "blas.axpy": [1], "blas.swap": [0, 1],
    "blas.gemv": [2], "blas.symv": [2], "blas.hemv": [2], "blas.gbmv": [4], "blas.sbmv": [2],
    "blas.trmv": [1], "blas.tbmv": [1], "blas.trsv": [1], "blas.tbsv": [1],
    "blas.ger": [2], "blas.geru": [2], "blas.gerc": [2], "blas.syr": [1], "blas.her": [1],
    "blas.syr2": [2], "blas.her2": [2],
    "blas.gemm": [2], "blas.symm": [2], "blas.hemm": [2], "blas.syrk": [1], "blas.herk": [1],
    "blas.syr2k": [2], "blas.her2k": [2], "blas.trmm": [1], "blas.trsm": [1],
    "base.gemv": [2], "base.symv": [2], "base.gemm": [2], "base.syrk": [1], "base.axpy": [1],
    "lapack.potrf": [0], "lapack.potrs": [1], "lapack.potri": [0], "lapack.posv": [0, 1],
    "lapack.trtrs": [1], "lapack.trtri": [0], "lapack.sytrf": [0, 1], "lapack.sytrs": [2],
    "lapack.sysv": [0, 1, 2], "lapack.getrf": [0, 1], "lapack.getrs": [2], "lapack.getri": [0],
    "lapack.gesv": [0, 1, 2], "lapack.geqrf": [0, 1], "lapack.ormqr": [2], "lapack.unmqr": [2],
    "lapack.orgqr": [0], "lapack.gels": [0, 1], "lapack.gesvd": [0, 1, 3, 4], "lapack.gesdd": [0, 1, 3, 4],
    "lapack.syev": [0, 1], "lapack.syevd": [0, 1], "lapack.syevr": [0, 1, 9], "lapack.syevx": [0, 1, 9],
    "lapack.lacpy": [1], "lapack.pbtrf": [0], "lapack.pbtrs": [1], "lapack.gtsv": [0, 1, 2, 3],
    "lapack.ptsv": [0, 1, 2], "lapack.gbsv": [1, 2, 3], "lapack.gbtrf": [0, 3], "lapack.gbtrs": [4],
    "cholmod.numeric": [1], "cholmod.solve": [1], "cholmod.linsolve": [1], "cholmod.options": [],
    "umfpack.linsolve": [1], "umfpack.solve": [2],
    "misc.scale": [0], "misc.scale2": [1], "misc.pack": [1], "misc.pack2": [0], "misc.unpack": [1],
    "misc.trisc": [0], "misc.triusc": [0], "misc.symm": [0], "misc.sprod": [0], "misc.ssqr": [0],
    "misc.sinv": [0], "misc.sgemv": [2], "misc.compute_scaling": [2],
    "misc.update_scaling": [0, 1, 2, 3],
    # max_step writes x and sigma only when sigma is given (4th argument)
    "misc.max_step": [],
}
WRITES_KW = {"lapack.syevr": {"Z": True}, "lapack.gesvd": {"U": True, "Vt": True},
             "lapack.gesdd": {"U": True, "Vt": True}}
# callbacks a solver receives: written positions per the documented contracts
CALLBACK_WRITES = {
    "xscal": [1], "yscal": [1], "xaxpy": [1], "yaxpy": [1], "xcopy": [1], "ycopy": [1],
    "G": [1], "A": [1], "P": [1], "Gf": [1], "Af": [1], "fP": [1], "fG": [1], "fA": [1], "Df": [1], "fDf": [1],
    "newfDf": [1], "H": [1], "fH": [1],
}
FRESH_CALLS = {"matrix", "spmatrix", "sparse", "spdiag", "xnewcopy", "ynewcopy", "dict", "list", "tuple",
               "set", "len", "sum", "max", "min", "abs", "int", "float", "range", "sorted", "isinstance",
               "type", "str", "repr", "iter", "zip", "enumerate", "math.sqrt", "sqrt", "log", "exp",
               "blas.dot", "blas.nrm2", "blas.asum", "blas.dotu", "misc.sdot", "misc.snrm2", "misc.sdot2",
               "misc.jdot", "misc.jnrm2", "xdot", "ydot", "misc.max_step", "misc.compute_scaling",
               "base.sqrt", "base.exp", "base.log", "mul", "div", "base.mul", "base.div", "copy.copy"}
MUTATORS = {"append", "extend", "insert", "pop", "remove", "clear", "update", "setdefault", "sort",
            "reverse", "popitem", "add", "discard"}
SCALAR_CALLS = {"len", "sum", "max", "min", "abs", "int", "float", "math.sqrt", "blas.dot", "blas.nrm2",
                "misc.sdot", "misc.snrm2", "xdot", "ydot", "misc.max_step", "misc.jdot", "misc.jnrm2",
                "blas.asum", "misc.sdot2", "math.log", "math.exp", "round", "bool"}


def is_scalar_expr(e, scalars):
    if isinstance(e, ast.Constant):
        return isinstance(e.value, (int, float, bool, complex, str)) or e.value is None
    if isinstance(e, ast.Name):
        return e.id in scalars
    if isinstance(e, ast.BinOp):
        return is_scalar_expr(e.left, scalars) and is_scalar_expr(e.right, scalars)
    if isinstance(e, ast.UnaryOp):
        return is_scalar_expr(e.operand, scalars)
    if isinstance(e, ast.BoolOp):
        return all(is_scalar_expr(v, scalars) for v in e.values)
    if isinstance(e, ast.Compare):
        return True
    if isinstance(e, ast.IfExp):
        return is_scalar_expr(e.body, scalars) and is_scalar_expr(e.orelse, scalars)
    if isinstance(e, ast.Call):
        return pf.call_name(e) in SCALAR_CALLS
    if isinstance(e, ast.Subscript):
        # x.size[0]; dims['l']; v[0] of a scalar-valued matrix element is a Python number
        if isinstance(e.value, ast.Attribute) and e.value.attr == "size":
            return True
        if isinstance(e.slice, ast.Constant) and e.slice.value == "l":
            return True
        if isinstance(e.slice, ast.Constant) and isinstance(e.slice.value, int) and not isinstance(e.value, ast.Subscript):
            return True      # element of a matrix / list of numbers read as a value
        return False
    if isinstance(e, ast.Attribute):
        return e.attr in ("typecode", "size", "real", "imag")
    return False


ELEM = "@elem:"


def _as_elements(roots):
    """alias set of a freshly built container whose elements have alias set `roots`"""
    return {r if r.startswith(ELEM) else ELEM + r for r in roots}


class FunctionEffects:
    """Analysis of one (entry) function including its nested defs."""

    def __init__(self, fn, mod, containers, protected=None, extra_roots=()):
        self.fn = fn
        self.mod = mod
        self.containers = set(containers)
        self.params = pf.arg_names(fn)
        self.protected = set(protected if protected is not None else self.params)
        self.extra_roots = set(extra_roots)
        self.result_roots = {"F"}
        self._comp_env = {}
        self.deep_attrs = False
        self.alias = {}           # (scope id, name) -> set of roots
        self.scalars = {}         # scope id -> set of scalar names
        self.summaries = {}       # nested def name -> set of written param positions
        self.sinks = []           # (node, root, how)
        self.nested = [n for n in ast.walk(fn) if isinstance(n, ast.FunctionDef) and n is not fn]
        self._scope_of = {}
        self._run()

    # -- helpers ------------------------------------------------------------------------
    def _scope(self, node):
        f = pf.enclosing_function(node)
        return f if f is not None else self.fn

    def _lookup(self, name, scope):
        """alias set of name as seen from scope (walking out through closures)."""
        s = scope
        while s is not None:
            loc = self._locals(s)
            if name in loc:
                return self.alias.get((id(s), name), set())
            if s is self.fn:
                break
            s = pf.enclosing_function(s)
        if name in self.extra_roots:
            return {name}
        return set()

    def _locals(self, s):
        if not hasattr(s, "_locals"):
            s._locals = pf.local_bindings(s)
        return s._locals[0]

    def _is_scalar_name(self, name, scope):
        s = scope
        while s is not None:
            if name in self._locals(s):
                return name in self.scalars.get(id(s), set())
            if s is self.fn:
                break
            s = pf.enclosing_function(s)
        return False

    def expr_alias(self, e, scope):
        if e is None:
            return set()
        if isinstance(e, ast.Name):
            if self._comp_env.get(e.id):
                return set(self._comp_env[e.id][-1])
            return set(self._lookup(e.id, scope))
        if isinstance(e, ast.Starred):
            return self.expr_alias(e.value, scope)
        if isinstance(e, ast.Subscript):
            if isinstance(e.slice, ast.Tuple):
                return set()       # two-argument indexing exists only for matrices: a copy
            base = self.expr_alias(e.value, scope)
            # containers hand out their elements; matrices hand out copies
            return self._elements(base)
        if isinstance(e, ast.Attribute):
            if isinstance(e.value, ast.Name) and e.value.id in self._imported_names():
                # a module-level object of another module (glpk.options, msk.options): shared state
                return {"<module state %s.%s>" % (e.value.id, e.attr)}
            if getattr(self, "deep_attrs", False) and e.attr not in ("size", "typecode", "name", "T", "H"):
                return self.expr_alias(e.value, scope)
            return set()
        if isinstance(e, (ast.List, ast.Tuple, ast.Set)):
            # a display is a new container: only its *elements* may share storage
            out = set()
            for x in e.elts:
                out |= self.expr_alias(x, scope)
            return _as_elements(out)
        if isinstance(e, ast.Dict):
            out = set()
            for x in e.values:
                out |= self.expr_alias(x, scope)
            return _as_elements(out)
        if isinstance(e, (ast.ListComp, ast.GeneratorExp, ast.SetComp)):
            # the comprehension's variables alias the elements of the containers they
            # iterate over; the result aliases whatever its element expression aliases
            saved = {}
            try:
                for g in e.generators:
                    base = self.expr_alias(g.iter, scope)
                    el = {r for r in base if r.split(".")[0] in self.containers or r in self.containers}
                    for x in ast.walk(g.target):
                        if isinstance(x, ast.Name):
                            self._comp_env.setdefault(x.id, []).append(el)
                            saved[x.id] = True
                return _as_elements(self.expr_alias(e.elt, scope))
            finally:
                for nm in saved:
                    self._comp_env[nm].pop()
        if isinstance(e, ast.IfExp):
            return self.expr_alias(e.body, scope) | self.expr_alias(e.orelse, scope)
        if isinstance(e, ast.BoolOp):
            out = set()
            for v in e.values:
                out |= self.expr_alias(v, scope)
            return out
        if isinstance(e, ast.Call):
            nm = pf.call_name(e)
            if isinstance(e.func, ast.Name) and e.func.id in self.result_roots and e.func.id in self.params:
                return {"<result of %s()>" % e.func.id}
            if nm in FRESH_CALLS:
                return set()
            if nm and nm.endswith(".get") and isinstance(e.func, ast.Attribute):
                base = self.expr_alias(e.func.value, scope)
                out = {r for r in base}
                for a in e.args[1:]:
                    out |= self.expr_alias(a, scope)
                    if isinstance(a, ast.Subscript) and pf.norm_expr(a) == "globals()['options']":
                        out.add("<module options>")
                return out
            if nm and nm.endswith(".copy"):
                return set()
            if getattr(self, "deep_attrs", False) and isinstance(e.func, ast.Attribute) \
                    and e.func.attr in ("items", "keys", "values", "get", "__getitem__"):
                return self.expr_alias(e.func.value, scope)
            if nm == "globals":
                return set()
            return set()
        return set()           # arithmetic, unary +/-, comparisons, constants: fresh

    def _imported_names(self):
        if not hasattr(self, "_imp"):
            imp = set()
            for n in ast.walk(self.fn):
                if isinstance(n, (ast.Import, ast.ImportFrom)):
                    for a in n.names:
                        imp.add((a.asname or a.name).split(".")[0])
            tree = getattr(self.mod, "tree", None)
            if tree is not None:
                for n in tree.body:
                    if isinstance(n, (ast.Import, ast.ImportFrom)):
                        for a in n.names:
                            imp.add((a.asname or a.name).split(".")[0])
            # only modules whose attributes are plain data shared between calls matter; kernels are called, not written
            self._imp = {x for x in imp if x in ("glpk", "msk", "mosek", "dsdp", "solvers", "cvxopt")}
        return self._imp

    def _elements(self, base):
        """what indexing / iterating an object with alias set `base` hands out"""
        return {r for r in base if r.split(".")[0] in self.containers or r in self.containers or r.startswith("<result of")} | \
            {r[len(ELEM):] for r in base if r.startswith(ELEM)}

    def _comp_elt_may_alias(self, comp):
        elt = comp.elt
        return isinstance(elt, (ast.Name, ast.Subscript))

    # -- fixpoint -----------------------------------------------------------------------
    def _run(self):
        scopes = [self.fn] + self.nested
        for s in scopes:
            for p in pf.arg_names(s):
                if s is self.fn:
                    self.alias[(id(s), p)] = {p}
                else:
                    self.alias[(id(s), p)] = {"<param %s.%s>" % (s.name, p)}
        # scalar names per scope
        for s in scopes:
            sc = set()
            changed = True
            assigns = [n for n in pf._scope_nodes(s) if isinstance(n, (ast.Assign, ast.AugAssign, ast.For))]
            names_all = {}
            for n in assigns:
                if isinstance(n, ast.Assign):
                    for t in n.targets:
                        if isinstance(t, ast.Name):
                            names_all.setdefault(t.id, []).append(n.value)
                        elif isinstance(t, ast.Tuple) and isinstance(n.value, ast.Tuple) and len(t.elts) == len(n.value.elts):
                            for x, v in zip(t.elts, n.value.elts):
                                if isinstance(x, ast.Name):
                                    names_all.setdefault(x.id, []).append(v)
                        elif isinstance(t, ast.Tuple):
                            for x in t.elts:
                                if isinstance(x, ast.Name):
                                    names_all.setdefault(x.id, []).append(None)
                elif isinstance(n, ast.For):
                    for x in ast.walk(n.target):
                        if isinstance(x, ast.Name):
                            it = n.iter
                            scal = isinstance(it, ast.Call) and pf.call_name(it) == "range"
                            names_all.setdefault(x.id, []).append(ast.Constant(value=0) if scal else None)
            while changed:
                changed = False
                for nm, vals in names_all.items():
                    if nm in sc or nm in pf.arg_names(s):
                        continue
                    if all(v is not None and is_scalar_expr(v, sc) for v in vals):
                        sc.add(nm)
                        changed = True
            self.scalars[id(s)] = sc
        changed = True
        rounds = 0
        while changed and rounds < 20:
            changed = False
            rounds += 1
            for s in scopes:
                for n in pf._scope_nodes(s):
                    pairs = []
                    if isinstance(n, ast.Assign):
                        for t in n.targets:
                            if isinstance(t, (ast.Tuple, ast.List)) and isinstance(n.value, (ast.Tuple, ast.List)) \
                                    and len(t.elts) == len(n.value.elts):
                                pairs += list(zip(t.elts, n.value.elts))
                            elif isinstance(t, (ast.Tuple, ast.List)):
                                pairs += [(x, ast.Subscript(value=n.value, slice=ast.Constant(value=0), ctx=ast.Load())) for x in t.elts]
                            else:
                                pairs.append((t, n.value))
                    elif isinstance(n, ast.For):
                        for x in ast.walk(n.target):
                            if isinstance(x, ast.Name):
                                pairs.append((x, ast.Subscript(value=n.iter, slice=ast.Constant(value=0), ctx=ast.Load())))
                    elif isinstance(n, (ast.ListComp, ast.GeneratorExp, ast.SetComp, ast.DictComp)):
                        pass
                    for t, v in pairs:
                        if isinstance(t, ast.Name):
                            a = self.expr_alias(v, s)
                            key = (id(s), t.id)
                            if not a <= self.alias.get(key, set()):
                                self.alias[key] = self.alias.get(key, set()) | a
                                changed = True
                        elif isinstance(t, ast.Attribute) and getattr(self, "deep_attrs", False) and isinstance(t.value, ast.Name):
                            # modeling objects: `newobj._linear = objective._linear` makes the parts of
                            # newobj share storage with whatever the value aliases
                            a = _as_elements(self.expr_alias(v, s))
                            key = self._owner_key(t.value.id, s)
                            if key and a and not a <= self.alias.get(key, set()):
                                self.alias[key] = self.alias.get(key, set()) | a
                                changed = True
                        elif isinstance(t, ast.Subscript):
                            # storing an alias into a local container: the container now
                            # reaches that root
                            base = t.value
                            while isinstance(base, ast.Subscript):
                                base = base.value
                            if isinstance(base, ast.Name):
                                a = self.expr_alias(v, s)
                                key = self._owner_key(base.id, s)
                                if key and a and not a <= self.alias.get(key, set()) and not (self.alias.get(key, set()) & self._roots()):
                                    pass   # element aliasing of fresh containers is tracked via subscript rule only for container roots
                # nested def summaries
            for d in self.nested:
                w = self._summary(d)
                if w != self.summaries.get(d.name):
                    self.summaries[d.name] = w
                    changed = True
        self._collect_sinks()

    def _owner_key(self, name, scope):
        s = scope
        while s is not None:
            if name in self._locals(s):
                return (id(s), name)
            if s is self.fn:
                break
            s = pf.enclosing_function(s)
        return None

    def _roots(self):
        return set(self.params) | self.extra_roots | {"<module options>"} | \
            {"<result of %s()>" % r for r in self.result_roots}

    def _written_positions(self, call, scope):
        """positions / argument expressions of `call` that the callee writes."""
        nm = pf.call_name(call)
        out = []
        if nm in WRITES:
            for i in WRITES[nm]:
                if i < len(call.args):
                    out.append(call.args[i])
            if nm == "misc.max_step" and (len(call.args) >= 4 or any(k.arg == "sigma" for k in call.keywords)):
                out.append(call.args[0])
            for k in call.keywords:
                if nm in WRITES_KW and k.arg in WRITES_KW[nm]:
                    out.append(k.value)
            return out
        if isinstance(call.func, ast.Name):
            f = call.func.id
            if f in self.summaries and self._resolves_to_nested(call.func, scope):
                for i in self.summaries[f]:
                    if i < len(call.args):
                        out.append(call.args[i])
                return out
            if f in CALLBACK_WRITES:
                for i in CALLBACK_WRITES[f]:
                    if i < len(call.args):
                        out.append(call.args[i])
                return out
            if f in ("f", "f3", "f4", "f6", "f4_no_ir", "f6_no_ir", "g", "solve"):
                return list(call.args)        # KKT solve routines overwrite all their arguments
            if f == "res":
                return list(call.args)
        return out

    def _resolves_to_nested(self, name_node, scope):
        kind, sc = pf.resolve_name(name_node, self.mod)
        return kind in ("local", "enclosing")

    def _summary(self, d):
        """positions of d's own parameters that d (may) write."""
        params = pf.arg_names(d)
        written = set()
        for n in pf._scope_nodes(d):
            for tgt, how in self._sink_targets(n, d):
                for r in self.expr_alias(tgt, d):
                    if r.startswith("<param %s." % d.name):
                        p = r[len("<param %s." % d.name):-1]
                        if p in params:
                            written.add(params.index(p))
        return written

    def _sink_targets(self, n, scope):
        """(expression written in place, description) pairs for node n."""
        out = []
        if isinstance(n, (ast.Assign, ast.AugAssign, ast.Delete)):
            tgts = n.targets if isinstance(n, (ast.Assign, ast.Delete)) else [n.target]
            for t in tgts:
                for x in ([t] if not isinstance(t, (ast.Tuple, ast.List)) else t.elts):
                    if isinstance(x, ast.Subscript):
                        out.append((x.value, "item assignment"))
                    elif isinstance(x, ast.Attribute):
                        out.append((x.value, "attribute assignment"))
                    elif isinstance(x, ast.Name) and isinstance(n, ast.AugAssign):
                        if not self._is_scalar_name(x.id, scope) and not is_scalar_expr(n.value, set()) or \
                                (not self._is_scalar_name(x.id, scope)):
                            if not self._is_scalar_name(x.id, scope):
                                out.append((x, "augmented assignment (in place for matrix/list/dict)"))
        elif isinstance(n, ast.Call):
            for a in self._written_positions(n, scope):
                out.append((a, "written by %s" % pf.call_name(n)))
            if isinstance(n.func, ast.Attribute) and n.func.attr in MUTATORS:
                out.append((n.func.value, "mutating method .%s()" % n.func.attr))
        return out

    def _collect_sinks(self):
        roots = {r for r in self._roots() if r in self.protected or r in self.extra_roots or r == "<module options>"
                 or r.startswith("<result of")}
        for s in [self.fn] + self.nested:
            for n in pf._scope_nodes(s):
                for tgt, how in self._sink_targets(n, s):
                    al = self.expr_alias(tgt, s)
                    callw = how.startswith("written by") or (getattr(self, "deep_attrs", False) and how.startswith("augmented assignment"))
                    if callw:
                        al = al | {r[len(ELEM):] for r in al if r.startswith(ELEM)}   # a callee may write the elements
                    # writing into an element of a container root: x in `dims['q'].append` handled by expr_alias
                    if isinstance(tgt, ast.Subscript) or isinstance(tgt, ast.Name) or True:
                        hit = (al & roots) | {r for r in al if r.startswith("<module state")}
                        if hit:
                            rf = self._refine(tgt, n, s)
                            if callw:
                                # parts attached by attribute / item stores (`f._linear = self._f._linear`) are not definitions of the
                                # name and survive the flow-sensitive refinement: an in-place `+=` / a callee reaches them
                                rf = rf | {r for r in al if r.startswith(ELEM)}
                                rf = rf | {r[len(ELEM):] for r in rf if r.startswith(ELEM)}
                            hit = (rf & roots) | {r for r in rf if r.startswith("<module state")}
                        # a Subscript target of a *matrix* root is a copy -> no alias (expr_alias handles)
                        # but `X[...] = v` where X is the root itself must count:
                        for r in hit:
                            self.sinks.append((n, r, how, tgt))


    # -- flow-sensitive refinement -------------------------------------------------------
    def _cfg(self, scope):
        if not hasattr(scope, "_fx_cfg"):
            scope._fx_cfg = pf.CFG(scope)
        return scope._fx_cfg

    def _refine(self, tgt, sink_node, scope, depth=0):
        """alias set of expression tgt evaluated at the program point of sink_node using
        only the definitions of its names that reach that point (names of enclosing
        scopes keep their flow-insensitive sets)."""
        names = [x for x in ast.walk(tgt) if isinstance(x, ast.Name)]
        if not names or depth > 6:
            return self.expr_alias(tgt, scope)
        cfg = self._cfg(scope)
        st = pf.enclosing_stmt(sink_node)
        node = None
        q = st
        while q is not None and node is None:
            node = cfg.node_of(q)
            q = getattr(q, "_parent", None)
        if node is None:
            return self.expr_alias(tgt, scope)
        local = [x.id for x in names if x.id in self._locals(scope)]
        rd = pf.reaching_defs(cfg, scope, sorted(set(local))) if local else {}
        override = {}
        for nm in set(local):
            acc = set()
            for dn in rd[node][nm]:
                if dn == 0:
                    if nm in pf.arg_names(scope):
                        acc |= self.alias.get((id(scope), nm), set()) & ({nm} | {r for r in self._roots() if r.startswith("<param")}) \
                            if scope is self.fn else self.alias.get((id(scope), nm), set())
                        if scope is self.fn:
                            acc.add(nm)
                    continue
                acc |= self._def_alias(cfg, dn, nm, scope, depth)
            override[nm] = acc
        return self._expr_alias_with(tgt, scope, override)

    def _def_alias(self, cfg, dn, nm, scope, depth):
        st, kind = cfg.node_stmt[dn], cfg.kind[dn]
        if kind == "iter":
            base = self._refine(st.iter, st, scope, depth + 1)
            return self._elements(base)
        if isinstance(st, ast.Assign):
            out = set()
            for t in st.targets:
                if isinstance(t, (ast.Tuple, ast.List)) and isinstance(st.value, (ast.Tuple, ast.List)) \
                        and len(t.elts) == len(st.value.elts):
                    for x, v in zip(t.elts, st.value.elts):
                        if isinstance(x, ast.Name) and x.id == nm:
                            out |= self._refine(v, st, scope, depth + 1)
                elif isinstance(t, (ast.Tuple, ast.List)):
                    if any(isinstance(x, ast.Name) and x.id == nm for x in t.elts):
                        out |= self._refine(st.value, st, scope, depth + 1) | self._elements(self._refine(st.value, st, scope, depth + 1))
                elif isinstance(t, ast.Name) and t.id == nm:
                    out |= self._refine(st.value, st, scope, depth + 1)
            return out
        if isinstance(st, ast.AugAssign):
            return self.alias.get((id(scope), nm), set())
        return set()

    def _expr_alias_with(self, e, scope, override):
        saved = {}
        for nm, val in override.items():
            key = (id(scope), nm)
            saved[key] = self.alias.get(key)
            self.alias[key] = val
        try:
            return self.expr_alias(e, scope)
        finally:
            for key, val in saved.items():
                if val is None:
                    self.alias.pop(key, None)
                else:
                    self.alias[key] = val
