# Sparse constant vectors (documented as valid constant terms) are measured with len() = number of nonzeros
from cvxopt import matrix, spmatrix, solvers
from cvxopt.modeling import variable, op, sum
solvers.options['show_progress'] = False
s = spmatrix([1., 2.], [0, 2], [0, 0], (3, 1))       # the vector (1,0,2)
d = matrix(s)
def t(name, mk):
    try:
        x = variable(3); c = mk(x)
        p = op(sum(x), [c, x <= 5]); p.solve(); print(name, '->', p.status, [round(v, 6) for v in x.value])
    except Exception as e:
        print(name, '->', type(e).__name__, e)
t('x + dense  >= 0', lambda x: x + d >= 0)       # reference: optimal [-1,0,-2]
t('x + sparse >= 0', lambda x: x + s >= 0)
t('x >= -sparse   ', lambda x: x >= -s)
t('sparse + x >= 0', lambda x: s + x >= 0)
t('sparse - (-x) >= 0', lambda x: s - (-x) >= 0)
# invalid input accepted: a 3-vector with 2 nonzeros added to a variable of length 2
y = variable(2)
f = y + s
print('len(variable(2) + sparse 3-vector) =', len(f), ' constant size', f._constant.size, ' linear length', len(f._linear))
