"""Triage: lapack.gels accepts a B that is shorter than max(m,n) rows (reads/writes past the buffer).
Only the accept/reject decision is observed here (no crash provoked)."""
from cvxopt import matrix, lapack
A = matrix([1.0, 2.0], (1, 2))          # m=1, n=2
B = matrix([1.0], (1, 1))               # 1 element; dgels needs max(m,n)=2 rows with ldB=2
try:
    lapack.gels(A, B, trans='T', ldB=2)
    print('accepted (B has 1 element, routine touches 2) -> FAIL')
except (TypeError, ValueError) as e:
    print('rejected:', e, '-> PASS')
