# One-character flags are truncated to 8 bits before validation: 'Ŏ' (U+014E) is taken for 'N', 'Ŕ' (U+0154) for 'T', ...
from cvxopt import matrix, blas
A = matrix([1., 2., 3., 4.], (2, 2)); x = matrix([1., 1.])
for t in ['N', 'T', 'Ŏ', 'Ŕ', 'Ń', 'X']:
    y = matrix([0., 0.])
    try:
        blas.gemv(A, x, y, trans=t); print(ascii(t), "accepted, y =", list(y))
    except Exception as e: print(ascii(t), type(e).__name__, e)
B = matrix([1., 2., 3., 4.], (2, 2))
blas.trsm(A, B, uplo='ŕ', side='Ɍ', diag='ŕ')   # U+0155->'U', U+024C->'L', -> 'U'
print("trsm with uplo=U+0155 side=U+024C diag=U+0155 accepted:", list(B))
