# buffer import truncates shape[k] to a C int: a 2**32+3 element buffer becomes a 3x1 matrix
import mmap
from cvxopt import matrix
n = 2**32 + 3
mm = mmap.mmap(-1, n*4, flags=mmap.MAP_PRIVATE | mmap.MAP_ANONYMOUS | getattr(mmap, 'MAP_NORESERVE', 0))
mv = memoryview(mm).cast('i')
mv[0], mv[1], mv[2] = 11, 22, 33
print(mv.shape)
try:
    A = matrix(mv); print('accepted:', A.size, list(A))      # expected OverflowError
except Exception as e:
    print(type(e).__name__, e)
