"""C19 - no argument values make the C extension access memory outside its matrices
(structural part: dominating length guards vs reference footprints, argument-type checks,
parse-format/storage agreement, index-range discipline, macro vocabulary)."""
import os
import re

from .. import cexpr as cx
from .. import cfront as cf
from .. import cmodel as cm
from .. import cwrap_rules as cw
from ..core import Check, AnalysisError

MACROS = {
    # name: (params, reference body) - compared structurally after parsing
    "len": (["x"], "(Matrix_Check(x) ? MAT_LGT(x) : SP_LGT(x))"),
    "MAX": (["X", "Y"], "((X) > (Y) ? (X) : (Y))"),
    "MIN": (["X", "Y"], "((X) < (Y) ? (X) : (Y))"),
    "CWRAP": (["i", "m"], "(i >= 0 ? i : m+i)"),
    "OUT_RNG": (["i", "dim"], "(i < -dim || i >= dim)"),
    "MAT_LGT": (["O"], "(MAT_NROWS(O)*MAT_NCOLS(O))"),
    "SP_LGT": (["O"], "(SP_NROWS(O)*SP_NCOLS(O))"),
    "MAT_NROWS": (["O"], "((matrix *)O)->nrows"),
    "MAT_NCOLS": (["O"], "((matrix *)O)->ncols"),
    "MAT_BUFD": (["O"], "((double *)((matrix *)O)->buffer)"),
    "MAT_BUFI": (["O"], "((int_t *)((matrix *)O)->buffer)"),
    "MAT_BUF": (["O"], "((matrix *)O)->buffer"),
    "MAT_ID": (["O"], "((matrix *)O)->id"),
    "X_NROWS": (["O"], "(Matrix_Check(O) ? MAT_NROWS(O) : SP_NROWS(O))"),
    "X_NCOLS": (["O"], "(Matrix_Check(O) ? MAT_NCOLS(O) : SP_NCOLS(O))"),
    "SP_NNZ": (["O"], "((spmatrix *)O)->obj->colptr[SP_NCOLS(O)]"),
}


def macro_defs(path):
    """{name: (params, body text)} for function-like #defines (continuation lines joined)"""
    out = {}
    txt = open(path, errors="replace").read().replace("\\\n", " ")
    for m in re.finditer(r"^[ \t]*#[ \t]*define[ \t]+(\w+)\(([^)]*)\)[ \t]+(.*)$", txt, re.M):
        out.setdefault(m.group(1), []).append(([p.strip() for p in m.group(2).split(",")], m.group(3).strip()))
    return out


def _canon(e):
    return cx.unparse(e)


def build(tier, repo):
    chk = Check(
        "C19", tier, repo,
        explanation=(
            "Static analysis of the compiled modules built from the repository (clang AST + case-based "
            "abstract execution of every wrapper). Decides: (R1) every matrix buffer handed to a "
            "BLAS/LAPACK routine is dominated, in every case (type arm x flags x zero/positive dimensions "
            "x optional arguments), by rejecting guards that cover offset + the routine's reference "
            "footprint (exact polynomials for all of BLAS and 49 LAPACK routines; concrete counter-example "
            "search on a grid when forms differ; for routines without a reference entry: some rejecting "
            "guard on the buffer's length), offsets rejected when negative, leading dimensions checked, "
            "locally allocated arrays at least as large as the footprint; (R2) the guards do not reject "
            "calls the footprint allows; (R5) every kernel of misc_solvers checks the type and length of "
            "its matrix arguments; (R9) every integer division/modulo has a divisor excluded from zero by a dominating "
            "test, or is an instance of a hand-confirmed data invariant whose precondition is re-checked; (R10) the real and complex "
            "sparse kernels address their arrays with the same index expressions; (R6) every PyArg_Parse* format unit is stored into a variable of the "
            "matching C type and the keyword/format/address tables have equal length; (R7) the "
            "length/index macros have their reference definitions. NOT decided: overflows inside "
            "BLAS/LAPACK/SuiteSparse, libc allocation failures; sparse.c's internal index arithmetic (C16)."),
        trusted_base=["clang 14 AST", "sa/kb_blas.py and sa/kb_lapack.py (netlib reference footprints)",
                      "sa/cmodel.py abstract execution", "sa/cexpr.py"],
        assumptions=["Linux/LP64 build configuration (SIZEOF_INT < SIZEOF_SIZE_T)",
                     "guard arithmetic is evaluated over the integers (C int overflow near 2^31 is a separate, recorded finding class)"])
    cs = cf.load_c(repo, files=["blas.c", "lapack.c", "misc_solvers.c", "base.c", "dense.c", "sparse.c"])
    r1 = chk.rule("C19-R1", "every buffer handed to BLAS/LAPACK is covered by dominating rejecting guards >= offset + reference footprint, in every case",
                  "accesses stay inside the argument buffers")
    r2 = chk.rule("C19-R2", "guards do not reject calls the reference footprint allows (accept/reject coincides with the footprint)",
                  "accept/reject decision coincides with the footprint the routine needs")
    for fname, tab, kbname in (("blas.c", "blas_functions", "kb_blas"), ("lapack.c", "lapack_functions", "kb_lapack")):
        c = cs[fname]
        tabs = cf.method_table(c)
        if tab not in tabs:
            raise AnalysisError("%s: method table %s not found" % (fname, tab))
        wr = [fn for _, fn in tabs[tab] if fn in c.funcs]
        st = cw.footprint_rule(r1, r2, repo, fname, wr, kbname=kbname)
        for k, v in st.items():
            chk.note_analysed("%s:%s" % (fname, k), v)
        chk.note_analysed("%s:wrappers" % fname, len(wr))
    c = cs["base.c"]
    wr = [fn for _, fn in cf.method_table(c).get("base_functions", []) if fn in c.funcs and
          re.search(r"\b(scal|gemv|gemm|syrk|symv|axpy)\s*\[\s*\w+\s*\]\s*\(", c.text(c.funcs[fn]["b"], c.funcs[fn]["e"]))]
    if len(wr) < 5:
        raise AnalysisError("base.c: expected at least 5 wrappers calling the BLAS function tables, found %s" % wr)
    st = cw.footprint_rule(r1, r2, repo, "base.c", wr, kbname="kb_blas")
    for k, v in st.items():
        chk.note_analysed("base.c:%s" % k, v)
    chk.note_analysed("base.c:wrappers", len(wr))
    nl = 0
    for fname, tab in (("blas.c", "blas_functions"), ("lapack.c", "lapack_functions")):
        cc = cs[fname]
        nl += cw.local_array_loop_rule(r1, cc, [fn for _, fn in cf.method_table(cc)[tab] if fn in cc.funcs])
    chk.note_analysed("loops_over_local_arrays", nl)
    r1.require(1800)
    r2.require(1800)

    r5 = chk.rule("C19-R5", "misc_solvers kernels: each matrix argument is type-checked and length-guarded before use",
                  "cone kernels touch nothing outside the addressed blocks")
    c = cs["misc_solvers.c"]
    for py, fn in cf.method_table(c).get("misc_solvers_functions", []):
        if fn not in c.funcs:
            continue
        w = cm.Wrapper(c, fn)
        pp = w.py_params() or []
        mats = [var for kw, var, unit, opt in pp if var and "matrix *" in (w.locals.get(var, ("", None))[0] or "")]
        sim = cm.Simulator(c, fn)
        checked, lenguard = set(), set()
        for st in cf.walk(sim.body):
            if st.get("k") == "IfStmt" and len(st.get("c", [])) > 1 and cm.is_error_exit(st["c"][1]):
                ce = sim.cond_of(st)
                if ce is None:
                    continue
                txt = cx.unparse(ce)
                for mv in mats:
                    if re.search(r"Matrix_Check\(%s\)" % re.escape(mv), txt):
                        checked.add(mv)
                    if re.search(r"len\(%s\)|MAT_LGT\(%s\)|%s->nrows|MAT_NROWS\(%s\)" % ((re.escape(mv),) * 4), txt):
                        lenguard.add(mv)
        where = "src/C/misc_solvers.c:%s" % fn
        for mv in mats:
            key = "%s:argument %s" % (fn, mv)
            if mv in checked and mv in lenguard:
                r5.ok(key, where, "Matrix_Check and length guard present")
            else:
                miss = [x for x, ok in (("Matrix_Check(%s)" % mv, mv in checked), ("a guard on len(%s)" % mv, mv in lenguard)) if not ok]
                r5.violation(key, where,
                             "`%s` is parsed with format 'O' and its fields/buffer are used without %s: any Python object, "
                             "or a matrix shorter than dims implies, makes the kernel read/write outside the buffer"
                             % (mv, " and ".join(miss)), "rejecting guards before first use", "absent")
    r5.require(12)

    r6 = chk.rule("C19-R6", "PyArg_Parse* tables: keyword/format/address counts agree and each unit is stored into a variable of the matching C type",
                  "argument parsing cannot overwrite the stack")
    nparse = 0
    for fname, c in cs.items():
        fns = [fn for fn in c.order if any(cf.callee_name(n) in ("PyArg_ParseTupleAndKeywords", "PyArg_ParseTuple")
                                          for n in cf.walk(c.funcs[fn]) if n.get("k") == "CallExpr")]
        nparse += len(fns)
        cw.signature_rule(r6, c, fns)
        cw.parse_target_rule(r6, c, fns)
    chk.note_analysed("functions_with_parse_call", nparse)
    r6.require(120)

    r8 = chk.rule("C19-R8", "running min/max accumulators update themselves (`v = MAX(v, e)`), not a sibling accumulator",
                  "range checks computed over index arrays see every entry")
    for fname, c in cs.items():
        for fn in c.order:
            node = c.funcs[fn]
            txt = c.text(node["b"], node["e"])
            accs = list(re.finditer(r"\b(\w+)\s*=\s*(MAX|MIN)\s*\(\s*(\w+)\s*,", txt))
            names = {(m_.group(1), m_.group(2)) for m_ in accs if m_.group(1) == m_.group(3)} | \
                    {(m_.group(1), m_.group(2)) for m_ in accs}
            for m_ in accs:
                v, kind, u = m_.group(1), m_.group(2), m_.group(3)
                if not re.fullmatch(r"[A-Za-z_]\w*", u) or u.isupper():
                    continue
                key = "%s:%s:%s = %s(%s, ..)" % (fname, fn, v, kind, u)
                where = "src/C/%s:%s:%d" % (fname, fn, c.line_of(node["b"] + m_.start()))
                if u == v:
                    r8.ok(key, where)
                elif any(n_ == u for n_, k_ in names):
                    r8.violation(key, where,
                                 "accumulator `%s` is updated from the sibling accumulator `%s`: its running %s only reflects the last entry"
                                 % (v, u, kind.lower()), "%s = %s(%s, ..)" % (v, kind, v), "%s(%s, ..)" % (kind, u))

    r13 = chk.rule("C19-R13", "elements of index lists (range-checked, possibly negative) are wrapped before they address anything",
                   "negative indices in lists address the intended element, never memory before the array")
    from .. import cdense as cd
    nw = 0
    for fname in ("dense.c", "sparse.c"):
        nw += cd.index_list_wrap_rule(r13, cs[fname], cs[fname].order)
    chk.note_analysed("index_list_element_reads", nw)
    r13.require(15)

    r9 = chk.rule("C19-R9", "no integer division or modulo by a value that a dominating test does not exclude from being zero",
                  "the interpreter is never crashed (SIGFPE)")
    from .. import cdiv
    nd = cdiv.division_rule(r9, cs)
    chk.note_analysed("integer_division_sites", nd)
    r9.require(20)

    r11 = chk.rule("C19-R11", "a result that may be Py_NotImplemented is tested before matrix fields are read from it",
                   "the interpreter is never crashed by an operand of an unexpected Python type")
    from .. import cstate
    nn = cstate.notimplemented_rule(r11, cs)
    chk.note_analysed("notimplemented_consumers", nn)
    r11.require(1)

    r12 = chk.rule("C19-R12", "every call through a per-type dispatch table excludes the types whose table entry is NULL",
                   "the interpreter is never crashed (sparse products on unsupported type combinations are refused)")
    nt = cstate.null_table_rule(r12, cs)
    chk.note_analysed("null_entry_dispatch_calls", nt)
    r12.require(6)

    r10 = chk.rule("C19-R10", "real / complex sparse kernels (separate functions) address x, y and the CCS arrays with the same index expressions",
                   "sparse products read and write only inside the documented footprints of their dense operands")
    nk = cw.sibling_function_rule(r10, cs["sparse.c"], [
        ("sp_daxpy", "sp_zaxpy"), ("sp_dgemv", "sp_zgemv"), ("sp_dsymv", "sp_zsymv"), ("spa_daxpy", "spa_zaxpy"),
        ("spa_daxpy_partial", "spa_zaxpy_partial"), ("spa_ddot", "spa_zdot"), ("triplet2dccs", "triplet2zccs")])
    chk.note_analysed("sparse_sibling_kernels", nk)
    r10.require(7)

    r7 = chk.rule("C19-R7", "length / index / buffer macros have their reference definitions",
                  "guards and index wrapping mean what the rules above assume")
    defs = {}
    for h in ("misc.h", "cvxopt.h"):
        p = os.path.join(repo, "src", "C", h)
        if not os.path.exists(p):
            raise AnalysisError("header missing: %s" % p)
        for k, v in macro_defs(p).items():
            defs.setdefault(k, []).extend((h, a, b) for a, b in v)
    for name, (params, ref) in MACROS.items():
        key = "macro %s" % name
        if name not in defs:
            r7.violation(key, "src/C", "macro %s is not defined in misc.h/cvxopt.h" % name, ref, "absent")
            continue
        good = False
        seen = []
        for h, ps, body in defs[name]:
            try:
                got = cx.parse(body)
                # rename parameters positionally
                ren = dict(zip(ps, params))
                want = cx.parse(ref)
                if _canon(_rename(got, ren)) == _canon(want):
                    good = True
            except cx.ParseError:
                pass
            seen.append(body)
        if good:
            r7.ok(key, "src/C/%s" % defs[name][0][0], ref)
        else:
            r7.violation(key, "src/C/%s" % defs[name][0][0], "macro %s differs from its reference definition" % name, ref, seen[:2])
    from .. import cmisc_rules as mr5
    from .. import crefusal
    allf = ["blas.c", "lapack.c", "base.c", "dense.c", "sparse.c", "misc_solvers.c"]
    r14 = chk.rule("C19-R14", "no refusal is dead: a test that repeats one its block has already made leaves the argument it names unchecked",
                   "inconsistent arguments raise a Python exception before anything is addressed")
    nd = 0
    for f_ in allf:
        nd += crefusal.dead_refusal_rule(r14, cs[f_], cs[f_].order)
    chk.note_analysed("refusals_checked", nd)
    r14.require(600)
    r15 = chk.rule("C19-R15", "a test of an allocation result has an effect (`if (!p) NULL;` is a missing return)",
                   "no NULL pointer is dereferenced after a failed allocation")
    chk.note_analysed("pointer_tests", mr5.no_effect_rule(r15, cs, allf))
    r15.require(80)
    r16 = chk.rule("C19-R16", "free() is applied to local C allocations only, never to a Python object",
                   "no argument is freed behind the interpreter's back")
    chk.note_analysed("frees_checked", mr5.free_local_rule(r16, cs, allf))
    r16.require(40)
    r17 = chk.rule("C19-R17", "re-shaping an existing matrix keeps its element count; work arrays have the same count in both type arms",
                   "copy loops and LAPACK routines stay inside the buffers they were given")
    nr = 0
    for f_ in ("dense.c", "sparse.c", "base.c"):
        nr += mr5.reshape_guard_rule(r17, cs[f_], cs[f_].order)
    nr += mr5.arm_alloc_rule(r17, cs["lapack.c"], cs["lapack.c"].order)
    chk.note_analysed("reshapes_and_arm_allocations", nr)
    r17.require(15)
    r7.require(14)
    return chk


def _rename(e, ren):
    if not isinstance(e, tuple):
        return e
    if e[0] == "id":
        return ("id", ren.get(e[1], e[1]))
    if e[0] == "call":
        return ("call", e[1], [_rename(a, ren) for a in e[2]])
    if e[0] == "cast":
        return ("cast", e[1], _rename(e[2], ren))
    if e[0] == "mem":
        return ("mem", _rename(e[1], ren), e[2], e[3])
    return tuple(_rename(x, ren) if isinstance(x, tuple) else ([_rename(y, ren) for y in x] if isinstance(x, list) else x) for x in e)
