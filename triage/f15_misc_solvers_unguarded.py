"""Triage: misc_solvers kernels neither type-check nor length-check their matrix arguments.
Each probe runs in a child process (they crash the interpreter)."""
import subprocess, sys
probes = {
 "symm": "misc_solvers.symm(matrix(1.0,(2,1)), 2000)",
 "scale": "misc_solvers.scale(matrix(1.0,(1,1)), {'d': matrix(1.0,(100000,1)), 'di': matrix(1.0,(100000,1)), 'v': [], 'beta': [], 'r': [], 'rti': []})",
 "sdot(non-matrix)": "misc_solvers.sdot(1, 2, {'l': 10**6, 'q': [], 's': []})",
}
for k, call in probes.items():
    r = subprocess.run([sys.executable, "-c", "from cvxopt import matrix, misc_solvers\n%s\nprint('returned')" % call],
                       capture_output=True, text=True)
    print(k, "rc", r.returncode, r.stdout.strip(), r.stderr.strip().split("\n")[-1][:80])
