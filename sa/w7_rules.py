"""Rules added after seed wave 7 (DESIGN section 6, "Seventh wave"): each generalises one missed
change into a convention the whole file follows, confirmed by reading every instance.

C side (text of every function, comments and inactive preprocessor branches removed):
  ld_default_rule        the default of an omitted ld<X> is taken from the rows of <X> itself
  callback_restore_rule  a file-scope callback slot is saved before it is set and restored after the call
  id_agreement_rule      every matrix read through the typed buffer macro of a switch arm is tied to the switch subject by an id test
  transpose_pair_rule    'T' and 'C' select the same dimensions wherever both are accepted
  sibling_return_rule    real/complex sibling wrappers return early under the same conditions
Python side:
  arm_operator_rule      `X = X op E` / `X op'= E` in the two arms of one test use the same operator
  dead_flag_rule         a boolean local that is tested is also set to the other value somewhere
  sibling_chain_rule     every solver computes relgap (and the other replicated report chains) by the same if-chain
"""
import ast
import re

from . import cexpr as cx
from . import cfront as cf
from .cmisc_rules import _ftext, _line, _bal


# --------------------------------------------------------------------------------------
def ld_default_rule(rule, c, fname, funcs=None):
    n = 0
    for fn in (funcs or c.order):
        if fn not in c.funcs:
            continue
        t = _ftext(c, fn)
        for m in re.finditer(r"\bif\s*\(\s*(ld(\w+))\s*==\s*0\s*\)\s*\1\s*=\s*([^;]+);", t):
            ld, X, expr = m.group(1), m.group(2), " ".join(m.group(3).split())
            refs = set(re.findall(r"\b(\w+)\s*->\s*n(?:rows|cols)\b", expr)) | \
                set(re.findall(r"\b(?:MAT|SP|X)_N(?:ROWS|COLS)\s*\(\s*(\w+)\s*\)", expr))
            n += 1
            key = "%s:%s:default of %s" % (fname, fn, ld)
            where = "src/C/%s:%s:%d" % (fname, fn, _line(c, fn, t, m.start()))
            bad = sorted(r for r in refs if r != X)
            if bad:
                rule.violation(key, where,
                               "the default leading dimension of `%s` is computed from the rows of `%s`: when the two matrices have different "
                               "heights the routine reads %s with the wrong column stride (or refuses a valid call)" % (X, bad[0], X),
                               "%s = MAX(1, %s->nrows)" % (ld, X), expr)
            else:
                rule.ok(key, where, expr)
    return n


# --------------------------------------------------------------------------------------
def callback_restore_rule(rule, c, fname):
    """static PyObject *G; ... P = G; G = F; <call>; G = P;"""
    src = cx.strip_pp(c.srcb.decode(errors="replace"))
    slots = set(re.findall(r"^static\s+PyObject\s*\*\s*(\w+)\s*;", src, re.M))
    n = 0
    for fn in c.order:
        t = _ftext(c, fn)
        for G in sorted(slots):
            sets = [m for m in re.finditer(r"\b%s\s*=\s*(\w+)\s*;" % re.escape(G), t)]
            if not sets:
                continue
            saves = {m.group(1): m.start() for m in re.finditer(r"\b(\w+)\s*=\s*%s\s*;" % re.escape(G), t)}
            for i, m in enumerate(sets):
                if m.group(1) in saves:
                    continue                       # this is a restore
                n += 1
                key = "%s:%s:%s set #%d" % (fname, fn, G, i)
                where = "src/C/%s:%s:%d" % (fname, fn, _line(c, fn, t, m.start()))
                saved = [p for p, pos in saves.items() if pos < m.start()]
                # the next write of the slot after this one must be a restore from a variable saved before the set, and no
                # `return` may sit between the set and that restore
                nxt = sets[i + 1] if i + 1 < len(sets) else None
                if not saved:
                    rule.violation(key, where, "the callback slot `%s` is overwritten without saving its previous value: a nested call made "
                                   "from inside the callback leaves its own callback behind for the outer call" % G,
                                   "prev = %s; %s = F; ...; %s = prev;" % (G, G, G), "no save")
                elif nxt is None or nxt.group(1) not in saved:
                    rule.violation(key, where, "the callback slot `%s` is set but not restored from `%s` after the call: the outer call of a "
                                   "nested pair goes on with the inner callback (wrong eigenvalue selection)" % (G, saved[0]),
                                   "%s = %s; after the LAPACK call" % (G, saved[0]), "no restore")
                elif re.search(r"\breturn\b", t[m.end():nxt.start()]):
                    rule.violation(key, where, "a `return` sits between the set of `%s` and its restore" % G, "restore on every exit", "early return")
                else:
                    rule.ok(key, where, "saved in %s, restored" % nxt.group(1))
    return n


# --------------------------------------------------------------------------------------
_ARM_MACRO = {"DOUBLE": "MAT_BUFD", "COMPLEX": "MAT_BUFZ"}


def id_agreement_rule(rule, c, fname, funcs, exceptions=None):
    """switch (MAT_ID(S)) { case DOUBLE: ... MAT_BUFD(M) ...; case COMPLEX: ... MAT_BUFZ(M) ... }: M is S, or tied to S by a
    chain of `MAT_ID(a) != MAT_ID(b)` refusals, or tested against the arm's id (`MAT_ID(M) != DOUBLE` ...) somewhere before."""
    from .cwrap_rules import switch_arm_texts
    exceptions = exceptions or {}
    n = 0
    for fn in funcs:
        if fn not in c.funcs:
            continue
        node = c.funcs[fn]
        t = _ftext(c, fn)
        par = {}

        def find(a):
            while par.get(a, a) != a:
                a = par[a]
            return a
        IDX = r"(?:(?:MAT_ID|X_ID|SP_ID)\s*\(\s*(\w+)\s*\)|\b(\w+)\s*->\s*id\b)"
        # locals holding the id of a matrix: `int id = MAT_ID(A);`
        alias = {}
        for m_ in re.finditer(r"\b(\w+)\s*=\s*" + IDX + r"\s*[;,]", t):
            alias[m_.group(1)] = m_.group(2) or m_.group(3)
        for m_ in re.finditer(IDX + r"\s*[!=]=\s*" + IDX, t):
            a, b = m_.group(1) or m_.group(2), m_.group(3) or m_.group(4)
            par[find(a)] = find(b)
        for m_ in re.finditer(IDX + r"\s*[!=]=\s*(\w+)\b", t):
            a, v = m_.group(1) or m_.group(2), m_.group(3)
            if v in alias:
                par[find(a)] = find(alias[v])
        for m_ in re.finditer(r"\b(\w+)\s*[!=]=\s*" + IDX, t):
            v, a = m_.group(1), m_.group(2) or m_.group(3)
            if v in alias:
                par[find(a)] = find(alias[v])
        const_tests = set()
        for m_ in re.finditer(IDX + r"\s*[!=]=\s*(?:INT|DOUBLE|COMPLEX)\b", t):
            const_tests.add(m_.group(1) or m_.group(2))
        for m_ in re.finditer(r"\b(?:INT|DOUBLE|COMPLEX)\s*[!=]=\s*" + IDX, t):
            const_tests.add(m_.group(1) or m_.group(2))
        for sw in cf.walk(node):
            if sw.get("k") != "SwitchStmt":
                continue
            span = c.paren_after(sw["b"])
            if not span:
                continue
            subj = re.match(r"\s*MAT_ID\s*\(\s*(\w+)\s*\)\s*$", c.text(span[0] + 1, span[1]))
            if not subj:
                continue
            S = subj.group(1)
            arms = switch_arm_texts(c, sw)
            for lab, body in arms.items():
                mac = _ARM_MACRO.get(lab.strip())
                if not mac:
                    continue
                for M in sorted(set(re.findall(r"\b%s\s*\(\s*(\w+)\s*\)" % mac, body))):
                    n += 1
                    key = "%s:%s:%s arm reads %s" % (fname, fn, lab.strip(), M)
                    where = "src/C/%s:%s" % (fname, fn)
                    if M == S or find(M) == find(S) or M in const_tests or (fn, M) in exceptions:
                        rule.ok(key, where)
                    else:
                        rule.violation(key, where,
                                       "`%s(%s)` is handed to the %s routine, but no refusal ties the type of `%s` to `%s` (the switch subject): a "
                                       "matrix of the other type is read with the wrong element size instead of raising TypeError"
                                       % (mac, M, lab.strip().lower(), M, S),
                                       "MAT_ID(%s) != MAT_ID(%s) -> err_conflicting_ids" % (S, M), "no id test of %s" % M)
    return n


# --------------------------------------------------------------------------------------
def _subst(cond, var, val):
    def rep(m):
        eq = m.group(1) == "=="
        return "1" if (m.group(2) == val) == eq else "0"
    return re.sub(r"\b%s\s*([!=]=)\s*'(\w)'" % re.escape(var), rep, cond)


def _truth(s):
    """evaluate a condition text whose trans comparisons are already 0/1; other atoms stay symbolic -> normalised text"""
    s = " ".join(s.split())
    for _ in range(20):
        s2 = s
        s2 = re.sub(r"\(\s*([01])\s*\)", r"\1", s2)
        s2 = re.sub(r"!\s*0\b", "1", s2)
        s2 = re.sub(r"!\s*1\b", "0", s2)
        s2 = re.sub(r"\b0\s*\|\|\s*", "", s2)
        s2 = re.sub(r"\s*\|\|\s*0\b(?!\s*&&)", "", s2)
        s2 = re.sub(r"\b1\s*&&\s*", "", s2)
        s2 = re.sub(r"\s*&&\s*1\b", "", s2)
        s2 = re.sub(r"\b1\s*\|\|\s*1\b", "1", s2)
        s2 = re.sub(r"\b0\s*&&\s*0\b", "0", s2)
        s2 = re.sub(r"\b0\s*\|\|\s*1\b|\b1\s*\|\|\s*0\b", "1", s2)
        s2 = re.sub(r"\b0\s*&&\s*1\b|\b1\s*&&\s*0\b", "0", s2)
        if s2 == s:
            break
        s = s2
    return s


def transpose_pair_rule(rule, c, fname, funcs):
    """For a flag that accepts both 'T' and 'C', every condition that decides a dimension (ternaries, non-refusing ifs) has the
    same value for 'T' and for 'C': a conjugate transpose has the shape of a transpose."""
    n = 0
    for fn in funcs:
        if fn not in c.funcs:
            continue
        t = _ftext(c, fn)
        flags = set(re.findall(r"\b(trans\w*)\s*[!=]=\s*'[TC]'", t))
        for V in sorted(flags):
            conds = []
            for m in re.finditer(r"\bif\s*\(", t):
                j = _bal(t, m.end() - 1)
                if j < 0:
                    continue
                after = t[j + 1:j + 80].lstrip()
                if re.match(r"(err_\w+|PY_ERR\w*|\{\s*(err_|PY_ERR))", after):
                    continue                         # refusals say which characters are accepted, they do not choose dimensions
                if re.match(r"\{?\s*%s\s*=[^=]" % re.escape(V), after):
                    continue                         # the 'C' -> 'T' rewrite of the real arm (C18-R3 decides where it may stand)
                conds.append((m.start(), t[m.end():j]))
            for m in re.finditer(r"\?", t):
                # condition of a ternary: the parenthesised group (or comparison) immediately before `?`
                k = m.start() - 1
                while k >= 0 and t[k].isspace():
                    k -= 1
                if k >= 0 and t[k] == ")":
                    d, i = 0, k
                    while i >= 0:
                        if t[i] == ")":
                            d += 1
                        elif t[i] == "(":
                            d -= 1
                            if d == 0:
                                break
                        i -= 1
                    conds.append((i, t[i + 1:k]))
            for pos, cond in conds:
                if not re.search(r"\b%s\s*[!=]=\s*'[TC]'" % re.escape(V), cond):
                    continue
                # accepted set: a flag whose refusal for this arm excludes 'C' (or 'T') has only one of the two
                n += 1
                a, b = _truth(_subst(cond, V, "T")), _truth(_subst(cond, V, "C"))
                key = "%s:%s:`%s`" % (fname, fn, " ".join(cond.split())[:70])
                where = "src/C/%s:%s:%d" % (fname, fn, _line(c, fn, t, pos))
                if a == b:
                    rule.ok(key, where)
                else:
                    rule.violation(key, where,
                                   "the condition distinguishes %s = 'T' from %s = 'C' where it chooses a dimension: for the conjugate transpose "
                                   "the default dimension / length test is that of the untransposed matrix" % (V, V),
                                   "same outcome for 'T' and 'C'", "'T': %s ; 'C': %s" % (a, b))
    return n


# --------------------------------------------------------------------------------------
def sibling_return_rule(rule, c, fname, table_funcs):
    """or*/un* and sy*/he* siblings: the quick-return conditions (`if (..) return Py_BuildValue("")`) agree."""
    names = set(table_funcs)
    pairs = []
    for f in sorted(names):
        for a, b in (("or", "un"), ("sy", "he"), ("sp", "hp"), ("sb", "hb")):
            if f.startswith(a) and (b + f[len(a):]) in names:
                pairs.append((f, b + f[len(a):]))

    def quick(fn):
        """the set of top-level disjuncts of all quick-return conditions (`if (a) return; if (b || c) return;` = {a, b, c})"""
        t = _ftext(c, fn)
        out = set()
        for m in re.finditer(r"\bif\s*\(", t):
            j = _bal(t, m.end() - 1)
            if j > 0 and re.match(r"\s*return\s+Py_BuildValue\s*\(", t[j + 1:]):
                cond = t[m.end():j]
                depth, cur = 0, ""
                k = 0
                while k < len(cond):
                    ch = cond[k]
                    if ch == "(":
                        depth += 1
                    elif ch == ")":
                        depth -= 1
                    if depth == 0 and cond[k:k + 2] == "||":
                        out.add("".join(cur.split()))
                        cur = ""
                        k += 2
                        continue
                    cur += ch
                    k += 1
                out.add("".join(cur.split()))
        return sorted(out)
    n = 0
    for a, b in pairs:
        if a not in c.funcs or b not in c.funcs:
            continue
        n += 1
        qa, qb = quick(a), quick(b)
        key = "%s:%s/%s quick returns" % (fname, a, b)
        if qa == qb:
            rule.ok(key, "src/C/%s:%s" % (fname, a), qa)
        else:
            rule.violation(key, "src/C/%s:%s" % (fname, b),
                           "the real and the complex sibling return early under different conditions: one of them returns without computing "
                           "a result the other computes", "%s: %s" % (a, qa), "%s: %s" % (b, qb))
    return n


# ======================================================================================
# Python side
def arm_operator_rule(rule, tree, fname):
    """if T: X = X op E  else: X op= E   (either order): same op, same E."""
    n = 0
    for fnode in ast.walk(tree):
        if not isinstance(fnode, (ast.FunctionDef,)):
            continue
        for node in ast.walk(fnode):
            if not isinstance(node, ast.If) or len(node.body) != 1 or len(node.orelse) != 1:
                continue
            a, b = node.body[0], node.orelse[0]
            for x, y in ((a, b), (b, a)):
                if isinstance(x, ast.Assign) and len(x.targets) == 1 and isinstance(x.value, ast.BinOp) and isinstance(y, ast.AugAssign):
                    tx = ast.dump(x.targets[0]).replace("Store()", "Load()")
                    if ast.dump(y.target).replace("Store()", "Load()") != tx:
                        continue
                    if ast.dump(x.value.left) != tx:
                        continue
                    n += 1
                    key = "%s:%s:%s broadcast/in-place arms" % (fname, fnode.name, ast.unparse(x.targets[0]))
                    where = "src/python/%s:%s:%d" % (fname, fnode.name, node.lineno)
                    if type(x.value.op) is type(y.op) and ast.dump(x.value.right) == ast.dump(y.value):
                        rule.ok(key + "@%d" % n, where, ast.unparse(x))
                    else:
                        rule.violation(key, where,
                                       "the two arms of `if %s` apply different operations to `%s`: `%s` (new object, used when the left "
                                       "operand is broadcast) and `%s` (in place)" % (ast.unparse(node.test), ast.unparse(x.targets[0]),
                                                                                     ast.unparse(x), ast.unparse(y)),
                                       "the same operator and operand in both arms", "%s / %s" % (ast.unparse(x), ast.unparse(y)))
    return n


def dead_flag_rule(rule, tree, fname, funcs=None):
    """A local assigned only the constants True/False: if every assignment stores the same constant, a test of it is constant and
    one arm of the test is dead (a `seen` flag that is never raised)."""
    n = 0
    for fnode in ast.walk(tree):
        if not isinstance(fnode, ast.FunctionDef) or (funcs and fnode.name not in funcs):
            continue
        vals, other = {}, set()
        for node in ast.walk(fnode):
            tg = []
            if isinstance(node, ast.Assign):
                for t_ in node.targets:
                    for e in ([t_] if not isinstance(t_, (ast.Tuple, ast.List)) else t_.elts):
                        if isinstance(e, ast.Name):
                            if isinstance(node.value, ast.Constant) and isinstance(node.value.value, bool) and not isinstance(t_, (ast.Tuple, ast.List)):
                                vals.setdefault(e.id, set()).add(node.value.value)
                            else:
                                other.add(e.id)
            elif isinstance(node, (ast.AugAssign, ast.AnnAssign, ast.NamedExpr)) and isinstance(getattr(node, "target", None), ast.Name):
                other.add(node.target.id)
            elif isinstance(node, (ast.For, ast.comprehension)):
                for e in ast.walk(node.target):
                    if isinstance(e, ast.Name):
                        other.add(e.id)
            elif isinstance(node, (ast.Global, ast.Nonlocal)):
                other.update(node.names)
            elif isinstance(node, ast.arg):
                other.add(node.arg)
        for v, s in sorted(vals.items()):
            if v in other:
                continue
            tests = [nd for nd in ast.walk(fnode) if isinstance(nd, (ast.If, ast.IfExp, ast.While)) and
                     any(isinstance(e, ast.Name) and e.id == v for e in ast.walk(nd.test))]
            if not tests:
                continue
            n += 1
            key = "%s:%s:flag %s" % (fname, fnode.name, v)
            where = "src/python/%s:%s:%d" % (fname, fnode.name, tests[0].lineno)
            if len(s) == 1:
                rule.violation(key, where,
                               "`%s` is only ever assigned %s, yet it is tested: the test is constant and the arm for the other value can never "
                               "run (the flag that records the first occurrence is never raised)" % (v, list(s)[0]),
                               "an assignment %s = %s on the path that handles the first occurrence" % (v, not list(s)[0]), "never assigned")
            else:
                rule.ok(key, where)
    return n


def sibling_chain_rule(rule, trees, target, min_sites):
    """All if-chains that assign `target` (e.g. relgap) in the solver modules have the same shape up to the names of the local
    cost variables; the majority shape is the reference, every site is compared with it."""
    sites = []
    for fname, tree in trees.items():
        for fnode in ast.walk(tree):
            if not isinstance(fnode, ast.FunctionDef):
                continue
            for node in ast.walk(fnode):
                if isinstance(node, ast.If) and _assigns_only(node, target):
                    sites.append((fname, fnode.name, node))
    # keep outermost chains only
    inner = set()
    for _, _, nd in sites:
        for sub in ast.walk(nd):
            if sub is not nd and isinstance(sub, ast.If):
                inner.add(id(sub))
    sites = [s for s in sites if id(s[2]) not in inner]
    shapes = {}
    for s in sites:
        shapes.setdefault(_shape(s[2]), []).append(s)
    if not shapes:
        return 0
    ref = max(shapes, key=lambda k: len(shapes[k]))
    n = 0
    for shp, lst in shapes.items():
        for fname, fn, nd in lst:
            n += 1
            key = "%s:%s:%s chain@%d" % (fname, fn, target, sum(1 for x in sites[:sites.index((fname, fn, nd))] if x[1] == fn and x[0] == fname))
            where = "src/python/%s:%s:%d" % (fname, fn, nd.lineno)
            if shp == ref:
                rule.ok(key, where)
            else:
                rule.violation(key, where,
                               "`%s` is computed by a different if-chain here than at the other %d sites of the solvers (the replicated definition "
                               "is gap/(-pcost) if pcost < 0, gap/dcost if dcost > 0, else None)" % (target, len(shapes[ref])),
                               ref[:200], shp[:200])
    return n


def _assigns_only(node, target):
    """every leaf statement of the if/elif/else chain is `target = E`"""
    def leafs(n):
        for part in (n.body, n.orelse):
            if not part:
                yield None
            for st in part:
                if isinstance(st, ast.If):
                    yield from leafs(st)
                else:
                    yield st
    ls = list(leafs(node))
    if ls and all(isinstance(st, ast.Assign) and isinstance(st.value, ast.Constant) for st in ls):
        return False          # constant chains (the direct solve without inequalities: gap is 0) divide nothing
    return bool(ls) and all(isinstance(st, ast.Assign) and len(st.targets) == 1 and isinstance(st.targets[0], ast.Name)
                            and st.targets[0].id == target for st in ls)


class _NumNorm(ast.NodeTransformer):
    def visit_Constant(self, n):
        if isinstance(n.value, (int, float)) and not isinstance(n.value, bool):
            return ast.copy_location(ast.Constant(float(n.value)), n)
        return n


def _shape(node):
    import copy
    return ast.unparse(_NumNorm().visit(copy.deepcopy(node))).replace("\n", " ; ")


# op.fromfile builds every function itself as `_function()` plus coefficients stored into `_linear._coeff` (C14-R4 evaluates exactly
# these stores), so there the linear part is the whole function and iterating its keys is complete.
LINEAR_ONLY_BUILDERS = {"fromfile"}


def bookkeeping_source_rule(rule, tree, fname, cls="op", table="_variables"):
    """Loops of the problem class that update the per-variable table `self._variables[v]` take v from a `.variables()` call (which
    covers linear *and* piecewise-linear terms), never from the coefficient dictionary of the linear part alone."""
    n = 0
    for cnode in ast.walk(tree):
        if not (isinstance(cnode, ast.ClassDef) and cnode.name == cls):
            continue
        for fnode in cnode.body:
            if not isinstance(fnode, ast.FunctionDef):
                continue
            for loop in ast.walk(fnode):
                if not (isinstance(loop, ast.For) and isinstance(loop.target, ast.Name)):
                    continue
                v = loop.target.id
                touches = any(isinstance(s, ast.Subscript) and isinstance(s.value, ast.Attribute) and s.value.attr == table
                              and isinstance(s.value.value, ast.Name) and s.value.value.id == "self"
                              and isinstance(s.slice, ast.Name) and s.slice.id == v and isinstance(s.ctx, (ast.Store, ast.Del))
                              or (isinstance(s, ast.Subscript) and isinstance(s.value, ast.Subscript) and isinstance(s.value.value, ast.Attribute)
                                  and s.value.value.attr == table and isinstance(s.value.slice, ast.Name) and s.value.slice.id == v
                                  and isinstance(s.ctx, (ast.Store, ast.Del)))
                              for s in ast.walk(loop))
                if not touches:
                    continue
                n += 1
                it = loop.iter
                key = "%s:%s.%s:loop over %s updates self.%s" % (fname, cls, fnode.name, ast.unparse(it)[:40], table)
                where = "src/python/%s:%s.%s:%d" % (fname, cls, fnode.name, loop.lineno)
                src = it
                while isinstance(src, ast.Call) and isinstance(src.func, ast.Name) and src.func.id in ("iter", "list", "tuple", "set") and src.args:
                    src = src.args[0]
                if isinstance(src, ast.Call) and isinstance(src.func, ast.Attribute) and src.func.attr == "variables":
                    rule.ok(key, where)
                elif fnode.name in LINEAR_ONLY_BUILDERS:
                    rule.ok(key + "@%d" % n, where, "functions built by the reader are linear by construction")
                elif any(isinstance(x, ast.Attribute) and x.attr in ("_coeff", "_linear") for x in ast.walk(src)):
                    rule.violation(key, where,
                                   "the variables whose bookkeeping entry is updated are taken from the coefficient dictionary of the linear part "
                                   "(`%s`): variables that occur only inside max/min/abs terms are not recorded, so `variables()` / "
                                   "`delconstraint` lose them" % ast.unparse(it), "for v in <function>.variables()", ast.unparse(it))
                else:
                    rule.ok(key, where, "other source: %s" % ast.unparse(it)[:60])
    return n


def unit_length_scaling_rule(rule, tree, fname, pf):
    """`K / len(X)` inside a branch whose own test requires `len(X) == 1` divides by one: the average it announces is taken over the
    wrong operand (the other operand of the test is the long one)."""
    n = 0
    for fnode in ast.walk(tree):
        if not isinstance(fnode, ast.FunctionDef):
            continue
        for node in ast.walk(fnode):
            if not isinstance(node, ast.If):
                continue
            conj = node.test.values if isinstance(node.test, ast.BoolOp) and isinstance(node.test.op, ast.And) else [node.test]
            ones = set()
            for cj in conj:
                if isinstance(cj, ast.Compare) and len(cj.ops) == 1 and isinstance(cj.ops[0], ast.Eq):
                    l, r = cj.left, cj.comparators[0]
                    for a, b in ((l, r), (r, l)):
                        if isinstance(a, ast.Call) and isinstance(a.func, ast.Name) and a.func.id == "len" and isinstance(b, ast.Constant) and b.value == 1:
                            ones.add(ast.dump(a))
            for st in node.body:
                for d in ast.walk(st):
                    if isinstance(d, ast.BinOp) and isinstance(d.op, ast.Div) and isinstance(d.right, ast.Call) and isinstance(d.right.func, ast.Name) \
                            and d.right.func.id == "len":
                        n += 1
                        key = "%s:%s:`%s` under `%s`" % (fname, fnode.name, ast.unparse(d), ast.unparse(node.test)[:50])
                        where = "src/python/%s:%s:%d" % (fname, fnode.name, d.lineno)
                        if ast.dump(d.right) in ones:
                            rule.violation(key, where,
                                           "`%s` divides by a length the enclosing test `%s` fixes at 1: the value is not averaged over the long "
                                           "operand" % (ast.unparse(d), ast.unparse(node.test)), "division by the length that is > 1", ast.unparse(d))
                        else:
                            rule.ok(key, where)
    return n
